"""The fixed family of user callables (coercers / rename handlers, default
setters, check_with functions) that generated schemas may use.

Each member is defined twice: here as a Python callable (tagged with
`__vname__` so the codec can name it) and in `lean/Cerberus/Model/Env.lean`
(`Env.family`).  The correspondence check is what validates the twin
definitions against each other.
"""
import json
import re

from cerberus import Validator


def _tag(name):
    def deco(f):
        f.__vname__ = name
        return f
    return deco


# --- coercers / rename handlers ---------------------------------------------

@_tag('c_int')
def c_int(v):
    if isinstance(v, bool):
        raise TypeError('bool is not int-like')
    if isinstance(v, int):
        return v
    if isinstance(v, str) and re.fullmatch(r'-?[0-9]+', v):
        return int(v)
    raise ValueError('not int-like')


@_tag('c_str')
def c_str(v):
    if isinstance(v, bool):
        raise TypeError('bool')
    if isinstance(v, int):
        return str(v)
    if isinstance(v, str):
        return v
    raise ValueError('not str-like')


@_tag('c_inc')
def c_inc(v):
    if isinstance(v, bool) or not isinstance(v, int):
        raise TypeError('not an int')
    return v + 1


@_tag('c_key')
def c_key(v):
    if isinstance(v, bool):
        raise TypeError('bool')
    if isinstance(v, str):
        return v + '_k'
    if isinstance(v, int):
        return v + 100
    raise ValueError('not a key')


@_tag('c_wrap')
def c_wrap(v):
    return [v]


@_tag('c_none')
def c_none(v):
    return None


@_tag('c_id')
def c_id(v):
    return v


@_tag('c_raise')
def c_raise(v):
    raise ValueError('c_raise always fails')


COERCERS = {f.__vname__: f for f in (c_int, c_str, c_inc, c_key, c_wrap, c_none, c_id, c_raise)}
# rename handlers must return something usable as a key of the modelled kind
RENAMERS = ('c_int', 'c_str', 'c_inc', 'c_key', 'c_id', 'c_raise')


# --- default setters ----------------------------------------------------------
# name = 's:' + json spec; spec = {"kind": "sum"|"copy"|"const"|"raise", ...}

def make_setter(spec):
    kind = spec['kind']
    if kind == 'sum':
        deps = list(spec['deps'])

        def setter(doc):
            acc = 1
            for d in deps:
                x = doc[d]
                if isinstance(x, bool) or not isinstance(x, int):
                    raise TypeError('not an int')
                acc += x
            return acc
    elif kind == 'copy':
        dep = spec['dep']

        def setter(doc):
            return doc[dep]
    elif kind == 'const':
        val = spec['v']

        def setter(doc):
            return val
    elif kind == 'raise':
        def setter(doc):
            raise RuntimeError('s_raise always fails')
    elif kind == 'keyerr':
        def setter(doc):
            raise KeyError('never there')
    elif kind == 'indirect':
        # reads its input through a look-up table: the KeyError of a missing input does not name a field
        dep = spec['dep']

        def setter(doc):
            table = {True: 1}
            return table[dep in doc]
    elif kind == 'index':
        # reads its input through a list: a missing input raises IndexError (a LookupError that is no KeyError), which
        # is an error of this field and no reason to try again later
        dep = spec['dep']

        def setter(doc):
            return [1][0 if dep in doc else 1]
    else:
        raise ValueError(kind)
    setter.__vname__ = 's:' + json.dumps(spec, sort_keys=True, separators=(',', ':'))
    setter.__vspec__ = spec
    return setter


# --- check_with functions ------------------------------------------------------

@_tag('k_odd')
def k_odd(field, value, error):
    if isinstance(value, bool) or not isinstance(value, int) or value % 2 != 1:
        error(field, 'Must be an odd number')


@_tag('k_fail')
def k_fail(field, value, error):
    error(field, 'always fails')


@_tag('k_pass')
def k_pass(field, value, error):
    pass


@_tag('k_two')
def k_two(field, value, error):
    error(field, 'first')
    error(field, 'second')


CHECKERS = {f.__vname__: f for f in (k_odd, k_fail, k_pass, k_two)}


# --- a subclass carrying the same family as *named* extensions ------------------

def _named_namespace():
    ns = {'__doc__': "Named twins: coercer 'c_int' <-> method `_normalize_coerce_c_int`, etc."}

    def mk_check(f):
        def m(self, field, value):
            f(field, value, self._error)
        return m

    for n, f in CHECKERS.items():
        ns['_check_with_' + n] = mk_check(f)

    def mk_coerce(f):
        def m(self, value):
            return f(value)
        return m

    for n, f in COERCERS.items():
        ns['_normalize_coerce_' + n] = mk_coerce(f)

    def s_one(self, doc):
        return 1

    def s_raise(self, doc):
        raise RuntimeError('s_raise always fails')

    ns['_normalize_default_setter_s_one'] = s_one
    ns['_normalize_default_setter_s_raise'] = s_raise

    # two rules of the subclass that check nothing; their constraint schemas are declared in the two documented
    # docstring styles (a bare literal; prose followed by the separator line and the literal)
    def _validate_vv_level(self, constraint, field, value):
        """{'type': 'integer'}"""

    def _validate_vv_flag(self, constraint, field, value):
        """Marks a field; checks nothing.

        The rule's arguments are validated against this schema:
        {'type': 'boolean'}"""

    ns['_validate_vv_level'] = _validate_vv_level
    ns['_validate_vv_flag'] = _validate_vv_flag
    return ns


# wrongly typed constraints for the rules only the subclass has
VV_BAD_CONSTRAINTS = {'vv_level': 'three', 'vv_flag': 'yes'}


VValidator = type(Validator)('VValidator', (Validator,), _named_namespace())


def fn_table():
    t = {}
    t.update(COERCERS)
    t.update(CHECKERS)
    return t
