"""Seeded, type-directed generation of schemas, documents and configurations.

Every random choice derives from one `random.Random`, itself derived from
(VERIF_SEED, case index), so a case replays from those two numbers alone.
No hypothesis: the shrinker in `shrink.py` works on the plain Python objects.
"""
import random

from . import families

FIELDS = ['a', 'b', 'c', 'd', 'e', 0, 1, -1, 2, 'a b']
SUBKEYS = ['a', 'b', 'c', 'k', 0, 1, 'x', 'type', 'dependencies']
INTS = [-2, -1, 0, 1, 2, 3, 5, 10]
FLOATS = [0.5, 1.0, 2.5, -1.5, 0.0, 3.0]
STRS = ['', 'a', 'ab', 'abc', 'foo', 'bar', 'x', '12', '-3', 'a_k', 'b']
REGEXES = ['[a-z]+', 'a.*', '[0-9]+', 'ab', '(foo|bar)', '.', 'a?b*$', '-?[0-9]+']
TYPES = ['integer', 'float', 'number', 'string', 'boolean', 'list', 'dict', 'container']
SCALAR_TYPES = ['integer', 'float', 'number', 'string', 'boolean']


def case_rng(seed, index):
    return random.Random((seed * 1000003 + index) & 0xFFFFFFFFFFFF)


class Gen(object):
    def __init__(self, rng, max_depth=3, normalization=0.0, logical=0.25, refs=0.0,
                 wrong_shape=0.2, named=0.0, checkers=0.15):
        self.r = rng
        self.max_depth = max_depth
        self.p_norm = normalization      # probability of adding normalization rules to a rule set
        self.p_logical = logical
        self.p_refs = refs
        self.p_wrong = wrong_shape
        self.p_named = named             # use named (method) extensions -> needs VValidator
        self.p_check = checkers
        self.uses_named = False
        self.features = set()

    # -- helpers ---------------------------------------------------------------
    def chance(self, p):
        return self.r.random() < p

    def pick(self, xs):
        return xs[self.r.randrange(len(xs))]

    def some(self, xs, lo=0, hi=3):
        n = self.r.randint(lo, min(hi, len(xs)))
        return self.r.sample(xs, n)

    def scalar(self, kinds='ifsbn'):
        k = self.pick(kinds)
        if k == 'i':
            return self.pick(INTS)
        if k == 'f':
            return self.pick(FLOATS)
        if k == 's':
            return self.pick(STRS)
        if k == 'b':
            return self.chance(0.5)
        return None

    def anyval(self, depth=2):
        """arbitrary JSON-like value"""
        x = self.r.random()
        if depth <= 0 or x < 0.55:
            return self.scalar()
        if x < 0.8:
            return [self.anyval(depth - 1) for _ in range(self.r.randint(0, 3))]
        return {k: self.anyval(depth - 1) for k in self.some(SUBKEYS, 0, 3)}

    # -- schemas ---------------------------------------------------------------
    def field_names(self, lo=1, hi=4):
        return self.some(FIELDS, lo, hi)

    def schema(self, depth=None, names=None, siblings=None):
        depth = self.max_depth if depth is None else depth
        names = self.field_names() if names is None else names
        return {f: self.rules(depth, siblings=names) for f in names}

    def rules(self, depth, siblings=(), validation_only=False, no_rename=False):
        """one rule set"""
        r = {}
        kind = self.pick(['int', 'num', 'str', 'bool', 'list', 'dict', 'any', 'multi', 'str', 'int', 'list', 'dict'])
        typed = self.chance(0.85)
        if kind == 'int':
            if typed:
                r['type'] = self.pick(['integer', 'number', 'float'])
            self.num_rules(r)
        elif kind == 'num':
            if typed:
                r['type'] = self.pick(['number', 'float'])
            self.num_rules(r)
        elif kind == 'str':
            if typed:
                r['type'] = 'string'
            self.str_rules(r)
        elif kind == 'bool':
            if typed:
                r['type'] = 'boolean'
            if self.chance(0.3):
                r['allowed'] = [self.chance(0.5)]
        elif kind == 'list':
            r['type'] = 'list'
            self.list_rules(r, depth, validation_only=validation_only)
            if 'schema' not in r and 'items' not in r and self.chance(0.3):
                r['type'] = ['list', 'string']
            elif 'items' in r and self.chance(0.3):
                # `items` without a type that excludes strings
                if self.chance(0.5):
                    r['type'] = ['list', 'string']
                else:
                    del r['type']
        elif kind == 'dict':
            r['type'] = 'dict'
            self.dict_rules(r, depth, siblings, validation_only=validation_only)
        elif kind == 'multi':
            r['type'] = self.some(SCALAR_TYPES + ['list'], 1, 3)
            if self.chance(0.5):
                self.num_rules(r)
            if self.chance(0.5):
                self.str_rules(r)
        else:
            # untyped: any rules, deliberately also ones that do not fit the value
            if self.chance(0.4):
                self.num_rules(r)
            if self.chance(0.4):
                self.str_rules(r)
            if self.chance(0.25):
                self.list_rules(r, 0)
        # rules that apply to every kind
        if self.chance(0.25):
            r['nullable'] = self.chance(0.7)
        if self.chance(0.2):
            r['required'] = self.chance(0.8)
        if self.chance(0.08):
            r['readonly'] = self.chance(0.8)
        if self.chance(0.12):
            r['empty'] = self.chance(0.5)
        if self.chance(0.05):
            r['meta'] = self.pick([{'label': 'x'}, 'note', 1])
        if siblings and self.chance(0.18):
            r['dependencies'] = self.dependencies(siblings)
        if siblings and self.chance(0.12):
            ex = self.some(list(siblings) + ['zz'], 1, 2)
            r['excludes'] = ex[0] if len(ex) == 1 and self.chance(0.6) else ex
        if self.chance(self.p_check):
            r['check_with'] = self.checker()
        if depth > 0 and self.chance(self.p_logical):
            self.logical(r, depth - 1, siblings, kind)
        if not validation_only and self.chance(self.p_norm):
            self.norm_rules(r, siblings, no_rename)
        for k in r:
            self.features.add(k)
        if len(r) > 1 and self.chance(0.35):
            # the order in which the rules are written is up to the schema author
            keys = list(r)
            self.r.shuffle(keys)
            r = {k: r[k] for k in keys}
        return r

    def num_rules(self, r):
        if self.chance(0.5):
            r['min'] = self.pick(INTS + FLOATS)
        if self.chance(0.5):
            r['max'] = self.pick(INTS + FLOATS)
        if self.chance(0.3):
            r['allowed'] = self.container(self.some(INTS + [1.0, True], 1, 4))
        if self.chance(0.2):
            r['forbidden'] = self.some(INTS + [2.0, False], 1, 3)

    def str_rules(self, r):
        if self.chance(0.35):
            r['regex'] = self.pick(REGEXES)
        if self.chance(0.3):
            r['minlength'] = self.r.randint(0, 3)
        if self.chance(0.3):
            r['maxlength'] = self.r.randint(0, 4)
        if self.chance(0.3):
            r['allowed'] = self.container(self.some(STRS, 1, 4))
        if self.chance(0.15):
            r['forbidden'] = self.some(STRS, 1, 3)
        if self.chance(0.15):
            r['min'] = self.pick(STRS)
        if self.chance(0.1):
            r['contains'] = self.pick(['a', 'b', ['a', 'b']])

    def container(self, xs):
        x = self.r.random()
        if x < 0.7:
            return list(xs)
        if x < 0.9:
            return tuple(xs)
        try:
            return {k: 1 for k in xs if isinstance(k, (str, int)) and not isinstance(k, bool)}
        except TypeError:
            return list(xs)

    def list_rules(self, r, depth, validation_only=False):
        x = self.r.random()
        if depth > 0 and x < 0.45:
            r['schema'] = self.rules(depth - 1, validation_only=validation_only, no_rename=True)
            # rules about unknown / required fields on the sequence itself: they say nothing about the items, whose mappings
            # go by the enclosing validator's settings (decided from x, so that the random stream of the other rules is kept)
            y = int(x * 100000)
            if y % 6 == 0:
                r['allow_unknown'] = y % 4 < 2
            elif y % 6 == 1:
                r['require_all'] = y % 4 < 2
        elif depth > 0 and x < 0.7:
            r['items'] = [self.rules(depth - 1, validation_only=validation_only, no_rename=True)
                          for _ in range(self.r.randint(0, 3))]
        if self.chance(0.25):
            r['minlength'] = self.r.randint(0, 3)
        if self.chance(0.25):
            r['maxlength'] = self.r.randint(0, 3)
        if self.chance(0.2):
            r['allowed'] = self.container(self.some(INTS + STRS, 1, 4))
        if self.chance(0.15):
            r['forbidden'] = self.some(INTS + STRS, 1, 3)
        if self.chance(0.2):
            r['contains'] = self.pick([1, 'a', [1, 2], ['a'], 2.0, (1, 'a')])

    def dict_rules(self, r, depth, siblings, validation_only=False):
        x = self.r.random()
        if depth > 0 and x < 0.55:
            names = self.some(SUBKEYS[:6], 1, 3)
            if self.chance(0.12):
                names.append('^a')          # a field whose name starts with a caret (what the `^^a` dependency path refers to)
            r['schema'] = {f: self.rules(depth - 1, siblings=names, validation_only=validation_only) for f in names}
            if self.chance(0.3):
                r['allow_unknown'] = self.allow_unknown(depth - 1, validation_only)
            if self.chance(0.2):
                r['require_all'] = self.chance(0.6)
            if not validation_only and self.chance(self.p_norm * 0.5):
                r['purge_unknown'] = self.chance(0.7)
        elif depth > 0 and x < 0.8:
            if self.chance(0.6):
                r['valuesrules'] = self.rules(depth - 1, validation_only=validation_only, no_rename=True)
            if self.chance(0.5):
                r['keysrules'] = self.keys_rules(validation_only)
            if self.chance(0.15):
                # the rules for unknown fields / purging beside keysrules / valuesrules, without a `schema` rule
                r['allow_unknown'] = self.allow_unknown(depth - 1, validation_only)
        elif depth > 0 and x < 0.9:
            # a mapping without a `schema` rule whose fields are all unknown: only allow_unknown / purge_unknown
            r['allow_unknown'] = self.allow_unknown(depth - 1, validation_only)
            if not validation_only and self.chance(self.p_norm * 0.5):
                r['purge_unknown'] = self.chance(0.7)
        if self.chance(0.2):
            r['minlength'] = self.r.randint(0, 2)
        if self.chance(0.2):
            r['maxlength'] = self.r.randint(0, 3)
        if self.chance(0.1):
            r['allowed'] = self.some(SUBKEYS[:5], 1, 4)
        if self.chance(0.1):
            r['contains'] = self.pick(['a', ['a', 'b'], 0])

    def keys_rules(self, validation_only=False):
        r = {}
        if self.chance(0.7):
            r['type'] = self.pick(['string', 'integer', ['string', 'integer']])
        if self.chance(0.4):
            r['regex'] = self.pick(REGEXES)
        if self.chance(0.3):
            r['allowed'] = self.some(SUBKEYS, 1, 4)
        if self.chance(0.2):
            r['minlength'] = self.r.randint(0, 2)
        if self.chance(0.2):
            r['forbidden'] = self.some(SUBKEYS, 1, 2)
        if not validation_only and self.chance(self.p_norm):
            r['coerce'] = self.coercer(for_keys=True)
        if self.chance(0.08):
            self.logical(r, 0, (), 'str')
        return r

    def allow_unknown(self, depth, validation_only=False):
        x = self.r.random()
        if x < 0.35:
            return True
        if x < 0.5:
            return False
        if x < 0.55:
            return {}
        return self.rules(max(depth, 0), validation_only=validation_only, no_rename=False)

    def dependencies(self, siblings):
        names = [str(s) if not isinstance(s, str) else s for s in siblings]
        names = names + ['zz', 'a.b', 'a.k', '^a', '^b.c', '^^a', 'b.a.c', 'c.0']
        x = self.r.random()
        if x < 0.35:
            return self.pick(names)
        if x < 0.65:
            return self.some(names, 1, 3)
        d = {}
        for n in self.some(names, 1, 2):
            d[n] = self.pick([1, 'a', [1, 2], ['a', 'b'], [None], None, True, [[1]], ()])
        return d

    def checker(self):
        names = list(families.CHECKERS)
        if self.chance(self.p_named):
            self.uses_named = True
            one = lambda: self.pick(names)
        else:
            one = lambda: families.CHECKERS[self.pick(names)]
        if self.chance(0.75):
            return one()
        return [one() for _ in range(self.r.randint(0, 2))]

    def coercer(self, for_keys=False, rename=False):
        names = list(families.RENAMERS) if (for_keys or rename) else list(families.COERCERS)

        def one():
            n = self.pick(names)
            if self.chance(self.p_named):
                self.uses_named = True
                return n
            return families.COERCERS[n]
        if self.chance(0.7):
            return one()
        return [one() for _ in range(self.r.randint(0, 3))]

    def light_def(self, kind, siblings):
        """a small definition without its own type, fitting the field's kind (so that it often validates)"""
        d = {}
        if kind in ('int', 'num'):
            if self.chance(0.6):
                d['min'] = self.pick([-2, -1, 0, 1])
            if self.chance(0.4):
                d['max'] = self.pick([2, 3, 5, 10])
            if self.chance(0.3):
                d['allowed'] = self.some(INTS, 2, 5)
            if self.chance(0.2):
                d['forbidden'] = self.some(INTS, 1, 2)
        elif kind == 'str':
            if self.chance(0.5):
                d['regex'] = self.pick(REGEXES)
            if self.chance(0.4):
                d['minlength'] = self.r.randint(0, 2)
            if self.chance(0.3):
                d['maxlength'] = self.r.randint(2, 4)
            if self.chance(0.3):
                d['allowed'] = self.some(STRS, 3, 8)
        elif kind == 'list':
            if self.chance(0.5):
                d['minlength'] = self.r.randint(0, 2)
            if self.chance(0.4):
                d['maxlength'] = self.r.randint(1, 3)
            if self.chance(0.3):
                d['schema'] = {'type': self.pick(['integer', 'string', ['integer', 'string']])}
        elif kind == 'dict':
            if self.chance(0.5):
                d['maxlength'] = self.r.randint(1, 3)
            if self.chance(0.4):
                d['schema'] = {k: self.pick([{}, {'type': 'integer'}, {'required': True}, {'nullable': True}])
                               for k in self.some(SUBKEYS[:4], 1, 2)}
                if self.chance(0.5):
                    d['allow_unknown'] = self.chance(0.7)
            if self.chance(0.3):
                d['valuesrules'] = {'type': self.pick(['integer', 'string', ['integer', 'string', 'list']])}
        else:
            if self.chance(0.5):
                d['type'] = self.pick(SCALAR_TYPES + ['list', 'dict'])
            if self.chance(0.3):
                d['nullable'] = True
        if siblings and self.chance(0.15):
            d['dependencies'] = self.dependencies(siblings)
        if self.chance(0.1):
            d['check_with'] = self.checker()
        return d

    def homogeneous_defs(self, kind):
        """definitions that all consist of the same single rule (what the <of>_<rule> shorthand abbreviates)"""
        rule = self.pick(['type', 'type', 'min', 'max', 'allowed', 'regex', 'minlength', 'check_with', 'nullable', 'forbidden'])
        n = self.r.randint(0, 3)
        vals = {
            'type': lambda: self.pick(SCALAR_TYPES + ['list', 'dict', ['integer', 'string']]),
            'min': lambda: self.pick(INTS), 'max': lambda: self.pick(INTS),
            'allowed': lambda: self.some(INTS + STRS, 1, 4), 'forbidden': lambda: self.some(INTS + STRS, 1, 3),
            'regex': lambda: self.pick(REGEXES), 'minlength': lambda: self.r.randint(0, 3),
            'check_with': lambda: self.checker(), 'nullable': lambda: self.chance(0.5),
        }[rule]
        return [{rule: vals()} for _ in range(n)]

    def logical(self, r, depth, siblings, kind='any'):
        for op in self.some(['anyof', 'allof', 'noneof', 'oneof'], 1, 2):
            if self.chance(0.3):
                r[op] = self.homogeneous_defs(kind)
                self.features.add(op)
                continue
            defs = []
            for _ in range(self.r.randint(0, 3)):
                if self.chance(0.65):
                    defs.append(self.light_def(kind, siblings))
                else:
                    defs.append(self.rules(depth, siblings=siblings, validation_only=True))
            r[op] = defs
            self.features.add(op)

    def norm_rules(self, r, siblings, no_rename):
        if self.chance(0.4):
            r['coerce'] = self.coercer()
        x = self.r.random()
        kr = r.get('keysrules')
        if isinstance(kr, dict) and ('coerce' in kr) and r.get('type') == 'dict' and 'coerce' not in r and self.chance(0.5):
            # a mutable default that the keys normalization has something to do with
            r['default'] = self.pick([{'a': 1, 'b': 2}, {'a': 1}, {1: 'x', 'k': 2}])
        elif x < 0.3:
            r['default'] = self.pick([0, 1, 'a', None, [1, 2], {'a': 1}, 2.5, True, []])
        elif x < 0.45:
            r['default_setter'] = self.setter(siblings)
        if not no_rename:
            y = self.r.random()
            if y < 0.15:
                r['rename'] = self.pick(FIELDS + ['zz'])
            elif y < 0.28:
                r['rename_handler'] = self.coercer(rename=True)

    def setter(self, siblings):
        sib = [s for s in siblings] or ['a']
        kind = self.pick(['sum', 'sum', 'copy', 'const', 'raise', 'keyerr'])
        if kind == 'sum':
            spec = {'kind': 'sum', 'deps': self.some(sib, 0, 2)}
        elif kind == 'copy':
            spec = {'kind': 'copy', 'dep': self.pick(sib)}
        elif kind == 'const':
            spec = {'kind': 'const', 'v': self.pick([1, 'a', None, [1]])}
        else:
            spec = {'kind': kind}
        return families.make_setter(spec)

    # -- configuration ---------------------------------------------------------
    def config(self, depth=1, norm=False):
        cfg = {}
        x = self.r.random()
        if x < 0.25:
            cfg['allow_unknown'] = True
        elif x < 0.4:
            cfg['allow_unknown'] = self.rules(depth, no_rename=not norm)
        elif x < 0.45:
            cfg['allow_unknown'] = {}
        if self.chance(0.3):
            cfg['require_all'] = True
        if self.chance(0.25):
            cfg['ignore_none_values'] = True
        if norm:
            if self.chance(0.3):
                cfg['purge_unknown'] = True
            if self.chance(0.2):
                cfg['purge_readonly'] = True
        return cfg

    # -- documents ---------------------------------------------------------------
    def value_for(self, rules, depth=3):
        """a value that is likely (not certainly) valid for the rule set"""
        if not isinstance(rules, dict):
            return self.anyval(1)
        if rules.get('nullable') and self.chance(0.15):
            return None
        if self.chance(self.p_wrong):
            return self.anyval(2)
        if isinstance(rules.get('items'), list) and self.chance(0.12) and \
                (rules.get('type') is None or (isinstance(rules.get('type'), (list, tuple)) and 'string' in rules['type'])):
            # `items` judges any sized iterable: a string of as many (or other) characters as there are item rules
            return ''.join(self.pick(['a', 'b', '1', 'x']) for _ in range(len(rules['items']) if self.chance(0.7) else self.r.randint(0, 3)))
        t = rules.get('type')
        if isinstance(t, (list, tuple)):
            t = self.pick(list(t)) if t else None
        if t is None:
            for op in ('anyof', 'oneof', 'allof'):
                if rules.get(op):
                    return self.value_for(self.pick(rules[op]), depth)
            if 'allowed' in rules and self.chance(0.7):
                return self.member(rules['allowed'])
            if 'regex' in rules or 'minlength' in rules:
                t = 'string'
            elif 'min' in rules or 'max' in rules:
                t = 'integer'
            elif 'items' in rules or 'schema' in rules:
                t = 'list'
            else:
                return self.anyval(1)
        if t in ('integer', 'number', 'float'):
            if 'allowed' in rules and self.chance(0.8):
                return self.member(rules['allowed'])
            lo = rules.get('min') if isinstance(rules.get('min'), (int, float)) else -2
            hi = rules.get('max') if isinstance(rules.get('max'), (int, float)) else 10
            cands = [x for x in (INTS if t != 'float' or self.chance(0.5) else FLOATS) if lo <= x <= hi]
            return self.pick(cands) if cands else self.pick(INTS)
        if t == 'string':
            if 'allowed' in rules and self.chance(0.8):
                return self.member(rules['allowed'])
            return self.pick(STRS)
        if t == 'boolean':
            return self.chance(0.5)
        if t in ('list', 'container'):
            if 'items' in rules and isinstance(rules['items'], list):
                return [self.value_for(x, depth - 1) for x in rules['items']]
            n = self.r.randint(0, 3)
            if isinstance(rules.get('schema'), dict):
                return [self.value_for(rules['schema'], depth - 1) for _ in range(n)]
            if 'allowed' in rules and self.chance(0.7):
                return [self.member(rules['allowed']) for _ in range(n)]
            return [self.scalar('iiss') for _ in range(n)]
        if t == 'dict':
            if isinstance(rules.get('schema'), dict):
                return self.document(rules['schema'], depth - 1, unknown=rules.get('allow_unknown'))
            d = {}
            au = rules.get('allow_unknown')
            for k in self.some(SUBKEYS, 0, 3):
                if 'valuesrules' in rules:
                    d[k] = self.value_for(rules.get('valuesrules'), depth - 1)
                elif isinstance(au, dict) and au and self.chance(0.8):
                    d[k] = self.value_for(au, depth - 1)
                else:
                    d[k] = self.anyval(1)
            kr = rules.get('keysrules')
            if isinstance(kr, dict) and ('coerce' in kr or 'rename_handler' in kr) and self.chance(0.4):
                # keys that a key coercer maps onto one another
                for a, b in self.some([(1, '1'), ('a', 'a_k'), (0, '0'), ('b', 'b_k')], 1, 2):
                    for k in (a, b):
                        if k not in d:
                            d[k] = self.value_for(rules.get('valuesrules'), depth - 1) if 'valuesrules' in rules else self.anyval(1)
            return d
        return self.anyval(1)

    def member(self, c):
        try:
            xs = list(c)
        except TypeError:
            return self.scalar()
        return self.pick(xs) if xs else self.scalar()

    def document(self, schema, depth=3, extra=0.25, missing=0.25, unknown=None):
        """`unknown`: the rule set for unknown fields (allow_unknown given as a mapping), if any"""
        d = {}
        for f, rules in schema.items():
            if self.chance(missing) and not (isinstance(rules, dict) and rules.get('required')):
                continue
            if self.chance(0.05):
                continue
            d[f] = self.value_for(rules, depth)
        # fields that rules of this level name but the schema does not define (excludes / dependencies targets)
        foreign = []
        for f, rules in schema.items():
            if isinstance(rules, dict):
                for rn in ('excludes', 'dependencies'):
                    c = rules.get(rn)
                    names = [c] if isinstance(c, (str, int)) else (list(c) if isinstance(c, (list, tuple, dict)) else [])
                    foreign += [n for n in names if isinstance(n, (str, int)) and not isinstance(n, bool) and n not in schema
                                and not (isinstance(n, str) and ('.' in n or n.startswith('^')))]
        if foreign and self.chance(0.5):
            for n in self.some(foreign, 1, 2):
                if n not in d:
                    d[n] = None if self.chance(0.5) else self.anyval(1)
        if isinstance(unknown, dict) and unknown and depth > 0 and self.chance(0.6):
            # unknown fields that the rules for unknown fields have something to say about
            for k in self.some(['u1', 'u2', 'zz'], 1, 2):
                if k not in d:
                    d[k] = self.value_for(unknown, depth - 1)
        if self.chance(extra):
            for k in self.some(FIELDS + ['zz', 'type'], 1, 2):
                if k not in d:
                    d[k] = self.anyval(1)
        # shuffle insertion order
        items = list(d.items())
        self.r.shuffle(items)
        return dict(items)

    def poison_dependencies(self, schema, doc):
        """make dotted / root-relative dependency paths run through values of the wrong shape"""
        def names(rules):
            d = rules.get('dependencies') if isinstance(rules, dict) else None
            if isinstance(d, str):
                return [d]
            if isinstance(d, (list, tuple, dict)):
                return [x for x in d if isinstance(x, str)]
            return []
        for f, rules in schema.items():
            for n in names(rules):
                parts = n.lstrip('^').split('.')
                if len(parts) < 2 or not self.chance(0.6):
                    continue
                head, nxt = parts[0], parts[1]
                doc[head] = self.pick([nxt, 'x' + nxt + 'x', [nxt], [nxt, 1], (nxt,), {nxt: 1}, {nxt: None},
                                       {nxt: {'c': 1, 'k': 2, '0': 3}}, 5, None, '', [[nxt]]])
        return doc

    def nones_document(self, schema, deep=False):
        """every field present, many of them None: exercises what a None value skips;
        `deep`: None values inside nested mappings and sequences as well"""
        d = {}
        for f, rules in schema.items():
            if deep:
                d[f] = None if self.chance(0.2) else self.sprinkle_none(self.value_for(rules), 0.4)
            else:
                d[f] = None if self.chance(0.6) else self.value_for(rules)
        return d

    def sprinkle_none(self, v, p):
        if isinstance(v, dict):
            return {k: (None if self.chance(p) else self.sprinkle_none(x, p)) for k, x in v.items()}
        if isinstance(v, list):
            return [(None if self.chance(p * 0.5) else self.sprinkle_none(x, p)) for x in v]
        return v

    def arbitrary_document(self):
        return {k: self.anyval(3) for k in self.some(FIELDS, 0, 5)}
