"""Operation sequences on one validator instance: generation, execution on the
real code, and the request for the Lean `api` port."""
import copy

from cerberus import SchemaError, DocumentError

from . import codec, real, gen, cases, ports
from .props import c13


def unordered(t):
    """the order of messages inside one list follows the (sorted) order of the error
    list, which the model does not reproduce: compare message lists as multisets"""
    return {k: (sorted(ms), unordered(sub)) for k, (ms, sub) in t.items()}


def accepted_form(case, raw):
    """`dict(Validator(raw).schema)` for the case's class and configuration, or None on SchemaError"""
    c = dict(case, schema=raw)
    try:
        v = real.make_validator(c)
    except SchemaError:
        return None
    return dict(v.schema)


def corrupt(rng, schema):
    """a single-point corruption that the validator must reject"""
    s = copy.deepcopy(schema)
    fields = [f for f in s if isinstance(s[f], dict)]
    if not fields:
        return {'a': {'type': 'nope'}}
    f = rng.choice(fields)
    kind = rng.randrange(3)
    if kind == 0:
        s[f]['no_such_rule'] = 1
    elif kind == 1:
        s[f]['type'] = 'no_such_type'
    else:
        s[f]['minlength'] = 'three'
    return s


def gen_ops(rng, case, n, probe=True):
    """a history of n operations for the case's validator; documents near-valid, arbitrary or non-mappings"""
    params = cases.PROFILES[case.get('profile', 'mixed')]
    g = gen.Gen(rng, **params)
    ops = []
    schema_now = case['schema']
    for _ in range(n):
        x = rng.random()
        if x < 0.12:
            ops.append({'op': 'errors'})
            continue
        y = rng.random()
        if y < 0.65:
            doc = g.document(schema_now)
        elif y < 0.9:
            doc = g.arbitrary_document()
        else:
            doc = rng.choice([None, [1, 2], 'text', 5])
        op = {'doc': doc}
        z = rng.random()
        if z < 0.12:
            raw = g.schema()
            op['schema_raw'] = raw
        elif z < 0.2:
            op['schema_raw'] = corrupt(rng, schema_now)
        if x < 0.55:
            op.update(op='validate', update=rng.random() < 0.3, normalize=rng.random() < 0.7)
        elif x < 0.8:
            op.update(op='validated', update=rng.random() < 0.3, normalize=rng.random() < 0.7,
                      always=rng.random() < 0.3)
        else:
            op.update(op='normalized', always=rng.random() < 0.4)
        ops.append(op)
        if 'schema_raw' in op:
            acc = accepted_form(case, op['schema_raw'])
            op['schema_acc'] = acc
            if acc is not None:
                schema_now = op['schema_raw']
    return ops


def run_real_op(v, op):
    """returns a canonical observation of the real call"""
    kind = op['op']
    try:
        if kind == 'errors':
            _ = v.errors          # the property itself is read as well (it rebuilds the handler's tree)
            return {'ret': ('rendered', unordered(c13.canon_tree(c13.TagHandler()(v._errors)))), 'exc': None}
        doc = copy.deepcopy(op['doc'])
        kw = {}
        if 'schema_raw' in op:
            kw['schema'] = copy.deepcopy(op['schema_raw'])
        if kind == 'validate':
            r = v.validate(doc, update=op['update'], normalize=op['normalize'], **kw)
            ret = ('bool', r)
            if not isinstance(r, bool):
                ret = ('notbool', repr(r))
        elif kind == 'validated':
            r = v.validated(doc, update=op['update'], normalize=op['normalize'],
                            always_return_document=op['always'], **kw)
            ret = ('doc', None if r is None else codec.canon_val(r))
        else:
            r = v.normalized(doc, always_return_document=op['always'], **kw)
            ret = ('doc', None if r is None else codec.canon_val(r))
        return {'ret': ret, 'exc': None}
    except (SchemaError, DocumentError) as e:
        return {'ret': ('raised', type(e).__name__), 'exc': e}
    except Exception as e:   # any other exception is a C03 matter; recorded as such
        return {'ret': ('raised', type(e).__name__), 'exc': e}


def observe_real(v, level=2):
    try:
        doc = codec.canon_val(v.document)
    except Exception:
        doc = ('opaque',)
    return {'errors': codec.canon_errs(v._errors, level), 'document': doc}


def model_request(case, ops):
    req = ports.base_request(dict(case, doc={}), 'api')
    del req['doc']
    req['schema'] = None if case.get('schema') is None else codec.enc_val(case['schema_acc'])
    jops = []
    for op in ops:
        j = {'op': op['op']}
        if op['op'] != 'errors':
            j['doc'] = codec.enc_val(op['doc'])
            for k in ('update', 'normalize', 'always'):
                if k in op:
                    j[k] = op[k]
            if 'schema_raw' in op:
                j['schema'] = {'raw': codec.enc_val(op['schema_raw']),
                               'acc': None if op['schema_acc'] is None else codec.enc_val(op['schema_acc'])}
        jops.append(j)
    req['ops'] = jops
    return req


def canon_model_obs(o, level=2):
    r = o['ret']
    if 'bool' in r:
        ret = ('bool', r['bool'])
    elif 'doc' in r:
        ret = ('doc', None if r['doc'] is None else codec.canon_jval(r['doc']))
    elif 'rendered' in r:
        ret = ('rendered', unordered(c13.canon_jtree(r['rendered'])))
    elif 'raised' in r:
        ret = ('raised', r['raised'][0])
    else:
        ret = ('other', repr(r))
    return {'ret': ret, 'errors': codec.canon_jerrs(o['errors'], level),
            'document': codec.canon_jval(o['document'])}
