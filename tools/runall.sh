#!/bin/bash
# tools/runall.sh [tier] [seed]  — every claimed check on the current tree, 4 at a time; prints one line per check
tier=${1:-quick}; seed=${2:-0}
cd "$(dirname "$0")/.."
/venv/bin/python -c "import json;print(' '.join(c['property_id'] for c in json.load(open('MANIFEST.json'))['checks']))" | tr ' ' '\n' | \
  xargs -P 4 -I{} bash -c 'out=$(VERIF_SEED='$seed' ./check {} --tier '$tier' 2>&1); rc=$?; echo "{} rc=$rc $(echo "$out" | grep -c "^VIOLATION") violations, $(echo "$out" | grep -c "^KNOWN-FINDING") known; $(echo "$out" | grep -E "^VIOLATION|Traceback|Error" | head -2 | tr "\n" " ")"'
