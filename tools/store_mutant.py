#!/venv/bin/python
"""tools/store_mutant.py <Cxx> <mN> [caught-by text]  — file a confirmed seeded change from /tmp/mut/out under seeded/"""
import json, os, shutil, subprocess, sys
p, m = sys.argv[1], sys.argv[2]
caught = sys.argv[3] if len(sys.argv) > 3 else None
src = '/tmp/mut/out/%s' % p
dst = os.path.join(os.path.dirname(os.path.dirname(os.path.abspath(__file__))), 'seeded', '%s-%s' % (p, m))
os.makedirs(dst, exist_ok=True)
shutil.copy(os.path.join(src, m + '.diff'), os.path.join(dst, 'patch.diff'))
shutil.copy(os.path.join(src, m + '_demo.py'), os.path.join(dst, 'demo.py'))
conf = subprocess.run(['tools/confirm_mutant.sh', p, m], stdout=subprocess.PIPE, text=True).stdout.strip()
meta = {'property': p, 'id': '%s-%s' % (p, m),
        'author': 'independent sub-agent given only the property text and a scratch worktree',
        'needs_to_manifest': open(os.path.join(src, m + '.md')).read(),
        'confirmed': {'how': 'tools/confirm_mutant.sh %s %s' % (p, m), 'result': conf},
        'apply': 'git -C /repo apply seeded/%s-%s/patch.diff   (undo: git -C /repo checkout -- .)' % (p, m)}
if caught:
    meta['caught_by'] = caught
json.dump(meta, open(os.path.join(dst, 'meta.json'), 'w'), indent=1)
print(dst, conf)
