#!/venv/bin/python
"""tools/design_tables.py — regenerate the two generated tables of DESIGN.md (between the BEGIN/END markers):
the findings table from findings/known_findings.json and the seeded-change summary from seeded/matrix.json."""
import json
import os
import re

ROOT = os.path.dirname(os.path.dirname(os.path.abspath(__file__)))


def findings_table():
    d = json.load(open(os.path.join(ROOT, 'findings', 'known_findings.json')))
    rows = ['| id | properties | status | commit | what failed |', '|---|---|---|---|---|']
    for f in d['findings']:
        what = re.sub(r'^fixed: property=\S+ \S+ ', '', f['what']).replace('|', '\\|')
        rows.append('| %s | %s | %s | %s | %s |' % (f['id'], ' '.join(f['properties']), f['status'], f.get('commit', '—'),
                                                  what if len(what) < 330 else what[:327] + '...'))
    return '\n'.join(rows)


def natural(mid):
    p, m = mid.split('-m')
    return (p, int(m))


def matrix_table():
    m = json.load(open(os.path.join(ROOT, 'seeded', 'matrix.json')))
    word = {'replay': 'concrete replay', 'nofail': 'broken correspondence (no-failing-input-found)', '-': 'not reported',
            'infra': 'infrastructure error', None: 'not run'}
    rows = ['| change | own check | other quick checks that also report it |', '|---|---|---|']
    for mid in sorted(m, key=natural):
        row = m[mid]
        if 'error' in row:
            rows.append('| %s | %s | |' % (mid, row['error']))
            continue
        own = mid.split('-')[0]
        others = [('%s' % c) + ('(n)' if r == 'nofail' else '') for c, r in sorted(row.items()) if c != own and r in ('replay', 'nofail')]
        ran_others = any(c != own for c in row)
        rows.append('| %s | %s | %s |' % (mid, word[row.get(own)], (', '.join(others) or '—') if ran_others else 'not run'))
    return '\n'.join(rows)


def main():
    p = os.path.join(ROOT, 'DESIGN.md')
    s = open(p).read()
    for tag, gen in (('FINDINGS-TABLE', findings_table), ('MATRIX-SUMMARY', matrix_table)):
        b, e = '<!-- %s-BEGIN -->' % tag, '<!-- %s-END -->' % tag
        if b in s and e in s:
            s = s[:s.index(b) + len(b)] + '\n' + gen() + '\n' + s[s.index(e):]
        else:
            print('markers for', tag, 'missing')
    open(p, 'w').write(s)


if __name__ == '__main__':
    main()
