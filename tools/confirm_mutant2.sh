#!/bin/bash
# tools/confirm_mutant2.sh <tag> <mN>  (tag = r2-Cxx): worktree /tmp/mut/<tag>, outputs /tmp/mut/out/<tag>
p=$1; m=$2; wt=/tmp/mut/$p; out=/tmp/mut/out/$p
git -C $wt checkout -q -- . ; git -C $wt apply $out/$m.diff || { echo "$p/$m APPLY-FAIL"; exit 1; }
t=$(cd $wt && /venv/bin/python -m pytest -q -p no:cacheprovider -n 8 cerberus/tests 2>&1 | tail -1)
PYTHONPATH=$wt /venv/bin/python -B $out/${m}_demo.py >/dev/null 2>&1; with=$?
git -C $wt checkout -q -- .
PYTHONPATH=$wt /venv/bin/python -B $out/${m}_demo.py >/dev/null 2>&1; without=$?
echo "$p/$m tests=[$t] demo_with=$with demo_without=$without"
