#!/bin/bash
# tools/run_all_on.sh <patch.diff>  — apply a change to /repo, run every quick check (first one full, the rest fast), undo it
patch="$(realpath "$1")"; cd /verif
if ! git -C /repo diff --quiet; then echo "repo dirty"; exit 2; fi
git -C /repo apply "$patch" || exit 3
out=$(./check C01 --tier quick 2>&1); rc=$?; res="C01=$rc"
rest=$(/venv/bin/python -c "import json;print(' '.join(c['property_id'] for c in json.load(open('MANIFEST.json'))['checks'] if c['property_id']!='C01'))")
res="$res $(echo $rest | tr ' ' '\n' | VERIF_SEARCH_SCALE=0.04 VERIF_MATRIX_FAST=1 xargs -P 5 -I{} bash -c 'o=$(./check {} --tier quick --no-build 2>&1); rc=$?; nf=$(echo "$o" | grep -c no-failing-input-found); echo "{}=$rc$( [ $nf -gt 0 ] && [ $(echo "$o" | grep -c "^VIOLATION") -eq $nf ] && echo n)"' | sort | tr '\n' ' ')"
git -C /repo checkout -- .
echo "$res"
