#!/bin/bash
# tools/run_mutant.sh <patch.diff> <Cxx> [<Cyy> ...]   — apply a seeded defect to /repo, run the quick checks, undo it
set -u
patch="$(realpath "$1")"; shift
cd /verif
if ! git -C /repo diff --quiet; then echo "repo dirty"; exit 2; fi
if ! git -C /repo apply --check "$patch" 2>/dev/null; then echo "PATCH-DOES-NOT-APPLY $patch"; exit 3; fi
git -C /repo apply "$patch"
for pid in "$@"; do
  out=$(./check "$pid" --tier quick 2>&1); rc=$?
  echo "== $pid rc=$rc: $(echo "$out" | grep -E 'VIOLATION|KNOWN' | head -3 | tr '\n' ' ')"
done
git -C /repo checkout -- .
