#!/venv/bin/python
"""tools/store_mutant2.py <tag> <mN> <new-id>  — file a confirmed seeded change from /tmp/mut/out/<tag> as seeded/<new-id>/"""
import json, os, shutil, subprocess, sys
tag, m, new = sys.argv[1], sys.argv[2], sys.argv[3]
src = '/tmp/mut/out/%s' % tag
root = os.path.dirname(os.path.dirname(os.path.abspath(__file__)))
dst = os.path.join(root, 'seeded', new)
os.makedirs(dst, exist_ok=True)
shutil.copy(os.path.join(src, m + '.diff'), os.path.join(dst, 'patch.diff'))
shutil.copy(os.path.join(src, m + '_demo.py'), os.path.join(dst, 'demo.py'))
conf = subprocess.run([os.path.join(root, 'tools/confirm_mutant2.sh'), tag, m], stdout=subprocess.PIPE, text=True).stdout.strip()
meta = {'property': new.split('-')[0], 'id': new, 'round': int(os.environ.get('ROUND', '2')),
        'author': 'independent sub-agent given only the property text, a scratch worktree and one-line summaries of the changes already tried',
        'needs_to_manifest': open(os.path.join(src, m + '.md')).read(),
        'confirmed': {'how': 'tools/confirm_mutant2.sh %s %s' % (tag, m), 'result': conf},
        'apply': 'git -C /repo apply seeded/%s/patch.diff   (undo: git -C /repo checkout -- .)' % new}
json.dump(meta, open(os.path.join(dst, 'meta.json'), 'w'), indent=1)
print(dst, conf[-60:])
