#!/usr/bin/env python3
"""Regenerates /verif/MANIFEST.json from the table below (kept in one place so
the manifest is valid at every commit)."""
import json
import os

ROOT = os.path.dirname(os.path.dirname(os.path.abspath(__file__)))

ALL = ['C%02d' % i for i in range(1, 19)]

COMMON_NOTE = ('Trusted: Lean 4.33 kernel (axioms per theorem audited each run: subset of propext, Classical.choice, '
               'Quot.sound; no sorry/native_decide/bv_decide/user axioms); harness/extract.py (tables regenerated from the '
               'live classes each run); the correspondence harness (generator coverage printed in the evidence, canonicaliser, '
               'JSON codec); Model/Value.lean as the model of Python primitives. ')

CLAIMED = {
    'C01': dict(
        technique='Lean 4 proof (queue-with-drop-lists = documented short-circuit semantics; table adequacy on extracted tables) + differential correspondence of the Lean reference interpreter with validate(normalize=False)',
        text=('The reference interpreter of the rules is the Lean function validate0 (every built-in validation rule, unknown-field policy, '
              'required/require_all/update/excludes pass, child validators with the keyword overrides of each call site, path crumbs). '
              'Proved for every handler family / environment: C01_queue (the rule queue with drop lists computes the documented '
              'short-circuit semantics), C01_handlers (only nullable/readonly/type/empty drop selectively), C01_tables + C01_types (the '
              'tables extracted from the live code on this run meet the semantic conditions: priority order, what None / empty values '
              'skip, never-queued rules, type table), C01_verdict, C01_required_update. The equality "real error set = reference '
              'interpreter" itself is decided by the validate0 port on generated schema x config x document cases (verdict, document '
              'path, code, schema path, rule, value, constraint, *of counts, children); a difference is reported with the case as replay.'),
        note=COMMON_NOTE + 'The model itself is the reference semantics (read from docs/validation-rules.rst and the code); float NaN/inf, sets/bytes/dates as document values and user callables outside the fixed family are outside the model.',
        design='§6 C01'),
    'C02': dict(
        technique='Lean 4 proof (pass-level theorems on the normalization model) + differential correspondence with normalized() and validate(normalize=True)',
        text=('The reference model of normalization is the Lean function normalize (rename, purge unknown, purge readonly, readonly check, '
              'defaults and default setters, coercion, containers; child validators with their overrides; type preservation). Proved for '
              'every environment: C02_chain_stops (a failing coercer leaves the value unchanged, files one error, no later chain member '
              'runs), C02_leaf_fail/ok, C02_kind (list/tuple kind preserved), C02_unknown_only (rules for unknown fields never touch a '
              'known field), C02_error_shape (code, document path, schema path of normalization errors), C02_purge_unknown, C02_purge_unknown_order (order kept, idempotent), C02_purge_readonly (a successful '
              'purge of readonly fields removes exactly the items of fields whose readonly is truthy, keeps the order, and met no unresolved rules), C02_readonly_check_normalized (a child that inherits an already normalized document files no readonly error). The equality '
              'of normalized document and normalization errors with the real code is decided by the normalize / validate ports.'),
        note=COMMON_NOTE + 'Coercers, rename handlers and default setters come from a fixed family with twin definitions (harness/families.py, Model/Env.lean).',
        design='§6 C02'),
    'C03': dict(
        technique='Lean 4 proof (per-handler totality on every value under explicit constraint guards; declared exceptions; caught user exceptions) + correspondence on wrong-shape streams + no-raise oracle',
        text=('In the Lean model every partial Python operation is an explicit Except. Proved: C03_only_declared / C03_document_error '
              '(only SchemaError and DocumentError leave __init_processing; a non-mapping document raises DocumentError), '
              'C03_coercer_caught / C03_setter_caught (exceptions of user coercers, rename handlers and default setters become errors), '
              'and for the rule handlers C03_allowed, C03_forbidden, C03_min, C03_max, C03_length, C03_regex, C03_items, C03_keysrules, '
              'C03_valuesrules, C03_nullable, C03_readonly, C03_empty, C03_check_with, C03_lookup, C03_contains, C03_dependencies (dependency names '
              'are strings, paths through values of any shape): no Python exception for *any* value, '
              'under a guard on the constraint that is what the rule\'s constraint schema demands. Partial: the composition over all '
              'nested rule sets of an accepted schema (needs the C04 well-formedness predicate) and the handlers '
              'excludes / schema / *of are decided by the ports (model and code must agree on raising) and the no-raise oracle on '
              'wrong-shape streams.'),
        note=COMMON_NOTE + 'Totality of the model is only as complete as the placement of partial operations in it; the ports check that placement against the code.',
        design='§6 C03'),
    'C04': dict(
        technique='Lean 4 proof (entry-point theorems; kernel-evaluated acceptance on the extracted meta-schema) + differential correspondence of the schema-submission model through all six entry points + corruption oracle',
        text=('Acceptance is modelled as: expand, then run the Lean validation model on the schema as a document under the rule '
              'constraint schemas extracted from the live class on this run, with the SchemaValidator callbacks (bulk_schema, schema, '
              'items, type, dependencies, logical) calling the model again. Proved: C04_rejection_keeps_state (a rejected submission '
              'leaves schema and allow_unknown untouched, at every entry point), C04_same_check (constructor/setter/per-call, item '
              'assignment, update and the allow_unknown setter all decide by the same predicate on the part they submit), '
              'C04_exposes_expanded, C04_meta_tables, C04_callbacks (kernel-evaluated: unknown rule, unknown type, wrongly typed '
              'constraint, normalization rule in an *of definition, dangling reference and non-rule-set *of member are rejected at '
              'depth 3; the intact schema is accepted). Partial: the general per-rule characterisation of "constraint satisfies the '
              'declared constraint schema" is not a theorem yet; it is decided by the accept/entries ports on generated schemas and '
              'single-point corruptions at every rule-set position, through every entry point, with the cache cleared. '
              'The corruptions include unknown rule names that are not strings, names only the internal schema validator has (logical, its '
              'checkers), wrongly typed constraints of subclass rules declared in both docstring styles, and references whose definitions '
              'live in registries bound to the validator / only in the module-level ones / are malformed. '
              'The checks found defects F26, F29, F32, F34, F35 (schema errors reported as other exceptions or not at all), repaired by fix: commits.'),
        note=COMMON_NOTE + 'The acceptance model is only as good as the Lean validation model it reuses; sets as constraints are outside the value universe.',
        design='§6 C04'),
    'C05': dict(
        technique='Lean 4 proof (frame theorem on a heap model of normalization: no pre-existing cell is written, induction over fuel and passes) + correspondence of the heap model (reified result, sharing map) + snapshot/identity oracle on the real objects',
        text=('Model/Heap.lean replays normalization on a heap of mutable cells with the write targets of the code (copy at entry, '
              'mapping[field] = ..., del mapping[field], the copy made by the keysrules pass, fresh containers from child results). '
              'C05_frame: for every environment, schema, options, heap and document reference, every cell that existed before the call '
              'is identical after it (unbounded depth/size); C05_fresh: the processed document is a cell allocated by the call; '
              'C05_input_value: the deep value of every pre-existing reference is unchanged on a closed heap; C05_no_normalize: with '
              'normalize=False the processed document is the input; C05_schema_kept: validate/validated/normalized leave the held schema. '
              'Tie: port `alias` (reify(hnormalize) = real normalized document, no pre-existing cell written, result fresh, every '
              'container the model says is shared with the input is the identical real object). The schema is a value in the model, so '
              '"a handler writes into the schema / a registry entry / a default value" is decided by the oracle on the real objects: deep '
              'snapshots and object identities of the caller document, dict(validator.schema) and the registry contents before/after '
              'validate, validate(normalize=False), validated, normalized, inline and with registry references.'),
        note=COMMON_NOTE + 'Which reference a rename/default/coerce write stores is reconstructed from the functional pass (the frame theorem does not depend on it; the port checks it). Schema-side immutability is oracle-decided, not a theorem.',
        design='§6 C05'),
    'C06': dict(
        technique='Lean 4 proof (return conventions and decomposition on the API state machine) + correspondence of the state machine + oracle of the API relations',
        text=('On the Lean state machine of one validator instance (Model/Api.lean): C06_verdict (validate returns True iff no error is '
              'recorded), C06_validated, C06_normalized (None conventions), C06_normalizes_first and C06_decompose_partial (validate = '
              'normalization errors followed by validation of the normalized document on the same instance; same processed document), '
              'C06_errors_empty (rendering empty iff no errors, via C13_empty). C06_decompose / C06_compose: for tables in which the rule '
              '`readonly` is never queued, validate(d) = normalization errors of normalized(d) ++ errors of a separate '
              'validate(normalized(d), normalize=False), same processed document, for every schema, options, document and update '
              '(Proofs/Marker.lean: the _is_normalized marker and the errors recorded so far are read by the readonly handler only, at '
              'every depth). C06_queue_without_readonly + C06_readonly_not_mandatory: a rule set that does not name readonly has the same '
              'queue under the extracted tables and under the tables without readonly. The composition of this bridge over all nested rule '
              'sets of a readonly-free schema is decided by the api port and the oracle on real validators (update in {False, True}).'),
        note=COMMON_NOTE + 'Acceptance of per-call schemas is an oracle of the api port (computed with the real code) until the C04 model is linked.',
        design='§6 C06'),
    'C07': dict(
        technique='Lean 4 proof (non-interference of the API state machine, induction over histories) + correspondence over random call histories + fresh-instance oracle',
        text=('C07_low: two instances that agree on schema and configuration give the same observation (return value or exception, recorded '
              'errors, processed document) for every processing call, and agree on schema and configuration afterwards, whatever else they '
              'hold from earlier calls; C07_history: after any finite history the probe call is observed as on a fresh instance. The state '
              'machine carries every field the instance keeps between calls and takes the whole state as input; it is tied to the code by '
              'the api port over random histories (mixed flags, invalid and non-mapping documents, accepted and rejected per-call schemas).'),
        note=COMMON_NOTE + 'Error trees and the handler tree are functions of the error list (C11, C13) and are not stored in the state.',
        design='§6 C07'),
    'C08': dict(
        technique='Lean 4 proof (transparency of the cache protocol under an explicit no-confusion hypothesis, by induction over histories; kernel-checked negation witnesses) + warm-vs-cold history oracle + cache-key correspondence',
        text=('On the Lean model of the validated-schemas cache (entries = key shape + structural key of the item + structural key of '
              'types_mapping; hit skips validation, success adds the entry; clear empties): C08_transparent_partial — for every '
              'history of submissions and clear_caches() in which no submission is confused with an earlier valid one, every outcome '
              'equals the outcome with the cache cleared beforehand; C08_clear; C08_keys (what the key identifies / keeps apart, '
              'incl. CPython integer hashing modulo 2^61-1). Partial, because the unconditional statement is false of the unchanged '
              'code: C08_witness_type / _hash / _string / _context / _subclass are its kernel-checked negations, each reproduced on '
              'the real code on every run and reported as KNOWN-FINDING F13a-e (not repaired: needs a redesign of the cache key). '
              'Tie: hkey port (model key equality = mapping_hash equality on variant pairs) and the warm-vs-cold oracle over '
              'histories across Validator and three subclasses through three entry points; any difference outside the five listed '
              'scenarios (e.g. a subclass-only *type*) is a violation.'),
        note=COMMON_NOTE + 'String hashing assumed collision free. The cache lookups nested inside one submission are modelled at the granularity of one lookup per item.',
        design='§6 C08'),
    'C09': dict(
        technique='Lean 4 proof (count/threshold/children theorems on the *of handler for every child-validation function) + standalone-definition oracle + validate0 correspondence',
        text=('C09_count: the number the operators compare is the number of definitions whose individual validation (definition + '
              'inherited type/allow_unknown, whole document, same options and update flag) reports no error; C09_anyof/allof/noneof/'
              'oneof: the thresholds; C09_info: the error carries that count, the number of definitions and exactly the errors of the '
              'failing definitions; C09_children; C09_skip_none / C09_skip_type on the extracted tables. All for every rec (hence '
              'validate0 at every fuel). Tie: validate0 port on the *of-heavy stream; oracle: each definition validated on its own by a '
              'real validator, compared with presence, counts and definition indices of the real error.'),
        note=COMMON_NOTE + 'That child errors are keyed by definition index in definitions_errors rests on the schema-path shape of child errors, which is checked by the oracle and the port (schema paths compared), not yet by a theorem.',
        design='§6 C09'),
    'C10': dict(
        technique='Lean 4 proof (child-context lemmas, one call-site theorem per container rule, path equivariance of the whole validation) + standalone-sub-document oracle + validate0 correspondence',
        text=('C10_inherit, C10_paths, C10_root, C10_root_deep, C10_root_lookup (configuration copied except keyword overrides; paths '
              'prefixed; root document captured by the first generation only and used for ^-paths at every depth); C10_schema_mapping, '
              'C10_schema_sequence, C10_items, C10_valuesrules, C10_keysrules: each container rule reports exactly the errors of the '
              'child validation of the sub-document / items / values / keys with the documented overrides and update flag. '
              'C10_equivariant (Proofs/Prefix.lean, induction over the fuel through every handler): a validator whose document and schema '
              'paths are longer at the front reports exactly the same errors with those prefixes on every path, child errors included; '
              'C10_detached: hence the errors beneath a field are those of the same validator detached from its parent (empty document '
              'path; class, configuration and root document kept) with the field path in front. What a root validator does differently '
              'from a detached child (the __allow_unknown__ marker crumb, the root of ^-dependencies) is decided by the oracle, which '
              'validates every sub-document standalone with real validators, and by the validate0 port.'),
        note=COMMON_NOTE + 'Item/value rule sets combining excludes with required are excluded as in the property; ^-dependencies below the compared field are skipped by the oracle and covered by C10_root_lookup + a direct depth-1..4 check.',
        design='§6 C10'),
    'C11': dict(
        technique='Lean 4 proof (induction over the error forest) + correspondence of the Tree model on the real recorded errors',
        text=('Theorems C11_fetch, C11_fetch_flatten, C11_nothing_else, C11_retrievable, C11_node, C11_lookup, C11_empty hold for '
              'every error forest (any nesting, any paths) of the Lean model of ErrorTree/ErrorTreeNode; the model is tied to '
              'errors.py by running Tree.build on the real recorded errors of generated validations and comparing with a '
              'traversal of the real trees and with fetch_errors_from / fetch_node_from queries; a direct oracle states the '
              'property on the real objects.'),
        note=COMMON_NOTE + 'Not modelled: node.errors.sort() (compared as multisets).',
        design='§6 C11'),
    'C12': dict(
        technique='Lean 4 proof (error construction lemmas; emitted (code, rule) pairs on extracted definitions; children only for group codes) + path-resolution oracle + validate0 correspondence at value/constraint level',
        text=('C12_value (document path = validator path + field; error.value = the document\'s value there), C12_constraint (schema '
              'path = validator schema path + (field, rule); error.constraint = the dereferenced rule set\'s entry, defaults for '
              'nullable/required), C12_definitions (every (code, rule) pair the handlers emit is an ErrorDefinition extracted from '
              'cerberus.errors on this run), C12_emitted (the handlers emit only those pairs and attach children only to group codes), '
              'C12_bits (group/logic/normalization bit tests on all 256 codes). Tie: validate0 port comparing value, constraint, rule; '
              'oracle: every real error at every nesting level is resolved against validator.document and validator.schema.'),
        note=COMMON_NOTE + 'Resolution of *nested* paths through the whole document/schema is decided by the oracle; the theorems cover the per-level construction.',
        design='§6 C12'),
    'C13': dict(
        technique='Lean 4 proof (message-count and top-level-key invariants of the rendering model) + correspondence of the Render model on the real recorded errors',
        text=('Theorems C13_count / C13_count_flatten (exactly one message per non-group error and per *of error: nothing dropped, '
              'nothing duplicated), C13_empty (empty iff no errors), C13_keys / C13_keys_all (the top-level keys are exactly the first '
              'document-path elements of the recorded errors that yield a message; Proofs/RenderKeys.lean: path rewriting keeps the first '
              'element through every *of / group level), C13_messages and C13_codes (on the extracted message/definition '
              'tables) hold for every error forest of the Lean model of BasicErrorHandler (path rewriting for group and *of errors, '
              'insertion, purge). The model is tied to errors.py by rendering the real recorded errors of generated validations '
              'with both and comparing trees (messages abstracted to error tags). Purity and list shape are decided by the '
              'port and the direct oracle on the real objects (stated as such; no theorem is claimed for Python-level mutation).'),
        note=COMMON_NOTE + 'Message texts are not modelled (tags instead).',
        design='§6 C13'),
    'C14': dict(
        technique='Lean 4 proof (resolved-view theorem: validation depends on a schema only through its dereferenced field mapping; use-site lemmas; kernel-evaluated recursion) + inline-vs-referenced oracle + correspondence with registries',
        text=('C14_resolved_view / C14_field_references / C14_schema_reference: validation reads a schema only through resolvedFields, '
              'so a schema with any subset of field rule sets (or the whole schema) replaced by registry names validates exactly like '
              'the inline schema, for every environment (module-level or validator-bound registry alike), document and options; '
              'C14_bulk_reference, C14_definitions, C14_subschema_reference (keysrules / valuesrules / list schema / items / '
              'allow_unknown / mapping sub-schema given by name are dereferenced at their use site); C14_acceptance (schema validation '
              'dereferences field definitions); C14_recursive (kernel-evaluated: a self-referential schema terminates on documents '
              'nested 0..6 deep and reports the planted error). Partial: termination for every finite document under arbitrary '
              'recursive registries, and the normalization-side use sites, are decided by the oracle (random subsets of reference-able '
              'positions, chains, both kinds of registries: same acceptance, verdict, errors, normalized document) and the ports. '
              'C14_fuel_irrelevant / C14_fuel_irrelevant_processing: the fuel that ties the recursion of the model is only a termination device (an answer other than out-of-fuel is the answer for every larger fuel; validation and normalization, every environment). C14_self_reference_accepted (kernel-evaluated: rules sets that refer to themselves from within a schema mapping are accepted, malformed ones rejected). C14_witness_items_on_string: the termination clause is FALSE for a self-referential items rule on a one-character string (kernel-checked by induction on the fuel; known finding F37, reported as KNOWN-FINDING). Defects F7, F21, F25, F27, F29, F30, F31, F33, F33b, F36, F38 of this property were repaired by fix: commits.'),
        note=COMMON_NOTE + 'Registries are modelled by their stored (already expanded) contents.',
        design='§6 C14'),
    'C15': dict(
        technique='Lean 4 proof (splitting, shorthand expansion, deprecated names, spaces on the expansion model; kernel-evaluated nested instance) + random-rewriting oracle + accept correspondence',
        text=('On the Lean model of DefinitionSchema.expand: C15_split (a key <op>_<rule> is split at the first underscore after the '
              'operator for every rule name), C15_underscore, C15_shorthand ({op_rule: [v..]} expands to {op: [{rule: v}..]} for every '
              'value list), C15_deprecated / C15_deprecated_conflict, C15_spaces, C15_nested and C15_idempotent_instance (kernel-'
              'evaluated: shorthand, deprecated and spaced forms planted in a sub-schema, list schema, valuesrules, items, *of '
              'definition and allow_unknown rule set expand to the canonical schema; re-expansion is the identity). Downstream '
              'behaviour coincides because everything consumes the expanded schema (C04_exposes_expanded). Partial: "wherever" for '
              'unbounded schemas is decided by the oracle (random rewritings at every eligible position of generated schemas: '
              'accepted, validator.schema canonical, same verdict/errors/normalized document) and the accept port (same expanded '
              'schema). Known finding F15c (list-schema rule set that looks like a field mapping) is reported as KNOWN-FINDING.'),
        note=COMMON_NOTE + 'Four defects of this property were repaired by fix: commits (F15b, F25, F28; F15a is covered by F28).',
        design='§6 C15'),
    'C16': dict(
        technique='Lean 4 proof (one environment threaded through the recursion; dispatch of custom rule / check_with / type / coercer independent of depth and context; cold isolation) + planted-extension oracle + correspondence with live class tables',
        text=('C16_same_class / C16_same_class_normalize: every child validation and normalization runs with the environment and '
              'tables (the class and its extra configuration) of its parent; C16_custom_rule, C16_check_with, C16_type, C16_coercer: '
              'an extension is evaluated on (constraint, value) alone, identically at every depth, path and history; '
              'C16_isolation_cold: whether a class accepts a schema is a function of its own tables and the registries; '
              'C16_isolation_warm_fails (with C08_witness_subclass): the cache breaks the isolation - known finding F13e. Tie: an '
              'extension of a generated subclass (custom rule, rule reading an extra config argument, custom type, named coercer / '
              'setter / check_with) planted at a random rule-set position of any depth: the subclass accepts (accept port with the '
              'class tables read from the live class), base class and sibling reject cold, validation and normalization match the '
              'model (validate0 / validate ports).'),
        note=COMMON_NOTE + 'Extra configuration arguments are modelled as part of the environment (closures), not as a field copied by Ctx.child.',
        design='§6 C16'),
    'C17': dict(
        technique='Lean 4 proof (termination measure over the rotation streak; least fixpoint and order independence for dependency setters via a rotation/no-duplicate argument on the known-states check) + correspondence of the work-list model + least-fixpoint oracle',
        text=('C17_terminates: for every setter family, pending list and mapping the work list stops within n(n+3)/2 iterations; '
              'C17_total: every pending field ends with a value or a "default cannot be set" error; C17_other_exc / C17_keyerror_requeues: '
              'another exception touches its own field only. C17_lfp: for setters that read other fields (deps looked up, missing -> KeyError) '
              'and any list of distinct pending fields, exactly the obtainable fields (inductive least fixpoint `Reach`) receive a value and '
              'exactly the others the error; C17_order_independent: two orders of the same pending fields resolve and fail the same sets '
              '(Proofs/SettersLfp.lean: the cycle check can only fire after the run of KeyErrors went once around the pending tuple). '
              'That the computed values do not depend on the order is decided by the port (model vs real normalization) and the independent '
              'least-fixpoint oracle, exhaustively for all dependency graphs on <= 3 fields x present-subsets x orders in the thorough tier, '
              'randomly up to 6 fields.'),
        note=COMMON_NOTE + 'Setters are modelled by their result class (value / KeyError / other exception); the fixpoint theorem is for setters whose KeyError is exactly a missing dependency.',
        design='§6 C17'),
    'C18': dict(
        technique='Lean 4 proof, partial (schedule independence of the shared-state machine for every interleaving of its atomic actions; negations at the pre-repair atomicity) + correspondence of the machine with real shared histories + deterministic line-level scheduler and stress search on real threads',
        text=('Model/Shared.lean: process-wide state (class-level cache of validated schemas, the schema objects callers share and that '
              'expansion rewrites in place, the lazily created schema-validator class) and threads as sequences of atomic actions. '
              'C18_independent / C18_same_as_alone: for every world with idempotent expansion and no key confusion, any number of threads, '
              'any programs (constructions from shared objects, calls with child validators) and EVERY schedule, a terminated thread '
              'produced exactly the sequential meaning of its program, in which neither the cache nor another thread occurs; '
              'C18_invariant: the shared state stays sound. Negations by kernel-evaluated schedules at the finer atomicity of the code '
              'before the repairs: C18_witness_expand (F18: shared `anyof_type` rule set ends as `anyof: []` or with three definitions), '
              'C18_witness_lazy_class (F17), C18_needs_no_confusion (= F13). PARTIAL: the theorem holds at the atomicity of the model '
              '(single dict/set operations atomic under the GIL, `expand` atomic under the expansion lock, class published complete); real '
              'preemption is outside Lean. Tie: port `shared` (op-granular shared histories on a logging cache: outcomes, cache traffic, '
              'cache contents, object contents = model run on tables measured alone); search on real threads: deterministic line-level '
              'scheduler (1 and 2 preemptions over the yield points of cerberus/schema.py, lazy class absent/present, locks made '
              'cooperative) and free-running threads with switch interval 1e-6 (2-8 threads): per-thread outcomes = outcomes alone. '
              'Found and repaired F17 and F18 on the real code with 1-preemption schedules.'),
        note=COMMON_NOTE + 'Atomicity of the modelled actions in CPython is assumed, supported by the scheduler search, not proved; free-threaded builds are out of scope. Hypotheses (idempotent expansion, no key confusion) are explicit: the second is violated by known findings F13a-e.',
        design='§6 C18'),
}

WIP = 'not claimed yet: machinery for this property is still being built (see DESIGN.md roadmap)'


def main():
    checks = []
    for pid in ALL:
        if pid not in CLAIMED:
            continue
        c = CLAIMED[pid]
        checks.append({
            'property_id': pid,
            'quick_cmd': './check %s --tier quick' % pid,
            'thorough_cmd': './check %s --tier thorough' % pid,
            'evidence_file': 'evidence/%s.json' % pid,
            'replay_cmd_template': './check %s --replay {path}' % pid,
            'engine': 'lean4-model+correspondence',
            'level_claimed': {'category': 'proof', 'text': c['text'], 'design_ref': c['design']},
            'level_note': c['note'],
            'technique': c['technique'],
        })
    m = {
        'version': 1,
        'setup_cmd': '/venv/bin/python -B -m harness.extract && cd lean && lake build',
        'hooks': {
            'guard': 'PYEVE_CERBERUS_VERIF',
            'enable': 'no hooks needed: every observable is reached through the public API, documented extension points and wrappers installed from outside',
            'baseline_off_cmd': 'cd /repo && /venv/bin/python -m pytest -ra -q -p no:cacheprovider --timeout=900 --continue-on-collection-errors',
            'source_commits': [],
            'add_only': True,
        },
        'engines': [{
            'name': 'lean4-model+correspondence',
            'path': 'lean/ (Lean 4 model, theorems, driver) + harness/ (extractor, generators, ports, oracles) + check',
            'serves_properties': sorted(CLAIMED),
            'kind_free_text': 'machine-checked proof in Lean 4 about an executable model; model tied to /repo by a table extractor run on every check and by differential correspondence (line protocol) against the real code',
        }],
        'checks': checks,
        'notes': 'See DESIGN.md. Known findings: findings/known_findings.json.',
        'not_applicable': [{'property_id': p, 'reason': WIP} for p in ALL if p not in CLAIMED],
    }
    with open(os.path.join(ROOT, 'MANIFEST.json'), 'w') as f:
        json.dump(m, f, indent=1)
        f.write('\n')


if __name__ == '__main__':
    main()
